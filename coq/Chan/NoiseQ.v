(* Executable, exact-rational side of C07: the squared form of "noise = draws * sqrt(P)" (no square root needed),
   and the defining equation of the dB conversions ( lin^(10*den) = 10^num for d = num/den dB ), as boolean checkers
   the kernel evaluates on what the implementation returns; their meaning is proved below. *)
From Coq Require Import QArith Qabs Lqa List Bool ZArith.
Import ListNotations.
Local Open Scope Q_scope.

Fixpoint qsum_sq (l : list Q) : Q := match l with [] => 0 | x :: t => x * x + qsum_sq t end.
Definition qmean_sq (l : list Q) : Q := qsum_sq l / inject_Z (Z.of_nat (length l)).

(* model: the i-th noise sample has the sign of the i-th draw and square  g_i^2 * P *)
Definition noise_sq (P : Q) (g : list Q) : list Q := map (fun gi => gi * gi * P) g.

Definition qle_b (a b : Q) : bool := Qle_bool a b.
Definition sample_ok (P tol g n : Q) : bool :=
  qle_b 0 (g * n) && qle_b (Qabs (n * n - g * g * P)) (tol * (g * g * P)).
Fixpoint scale_check (P tol : Q) (g n : list Q) : bool :=
  match g, n with
  | [], [] => true
  | gi :: g', ni :: n' => sample_ok P tol gi ni && scale_check P tol g' n'
  | _, _ => false
  end.

(* proportionality only (the scalar is whatever it is): n_i^2 * sum g^2 = g_i^2 * sum n^2, same signs *)
Definition prop_ok (tol sg sn g n : Q) : bool :=
  qle_b 0 (g * n) && qle_b (Qabs (n * n * sg - g * g * sn)) (tol * (g * g * sn)).
Fixpoint prop_check_aux (tol sg sn : Q) (g n : list Q) : bool :=
  match g, n with
  | [], [] => true
  | gi :: g', ni :: n' => prop_ok tol sg sn gi ni && prop_check_aux tol sg sn g' n'
  | _, _ => false
  end.
Definition prop_check (tol : Q) (g n : list Q) : bool := prop_check_aux tol (qsum_sq g) (qsum_sq n) g n.

(* dB: r is the linear value of num/den dB  iff  r^(10 den) = 10^num *)
Definition ten_pow (z : Z) : Q := Qpower 10 z.
Definition lin_check (tol r : Q) (num : Z) (den : positive) : bool :=
  qle_b (Qabs (Qpower r (10 * Zpos den) - ten_pow num)) (tol * ten_pow num).
(* S / P is the linear value of num/den dB:  S^(10 den) = 10^num * P^(10 den) *)
Definition ratio_check (tol S P : Q) (num : Z) (den : positive) : bool :=
  qle_b (Qabs (Qpower S (10 * Zpos den) - ten_pow num * Qpower P (10 * Zpos den))) (tol * (ten_pow num * Qpower P (10 * Zpos den))).

(* ------------------------------------------------------------------ facts *)
Lemma qle_b_iff a b : qle_b a b = true <-> a <= b.
Proof. unfold qle_b. apply Qle_bool_iff. Qed.

Lemma qsum_sq_nonneg l : 0 <= qsum_sq l.
Proof. induction l as [|a l IH]; cbn [qsum_sq]; [lra|]. assert (0 <= a * a) by nra. lra. Qed.

(* the per-sample check bounds the total: | sum n^2 - P sum g^2 | <= tol * P * sum g^2 *)
Theorem scale_check_total P tol g n : scale_check P tol g n = true ->
  Qabs (qsum_sq n - P * qsum_sq g) <= tol * (P * qsum_sq g).
Proof.
  revert n; induction g as [|gi g IH]; intros [|ni n] H; try discriminate.
  - cbn [qsum_sq]. setoid_replace (0 - P * 0) with 0 by ring. setoid_replace (tol * (P * 0)) with 0 by ring. cbn. lra.
  - cbn [scale_check] in H. apply andb_true_iff in H. destruct H as [Hs Hr]. specialize (IH n Hr).
    unfold sample_ok in Hs. apply andb_true_iff in Hs. destruct Hs as [_ Hs]. apply qle_b_iff in Hs.
    cbn [qsum_sq].
    setoid_replace (ni * ni + qsum_sq n - P * (gi * gi + qsum_sq g)) with ((ni * ni - gi * gi * P) + (qsum_sq n - P * qsum_sq g)) by ring.
    eapply Qle_trans; [apply Qabs_triangle|].
    setoid_replace (tol * (P * (gi * gi + qsum_sq g))) with (tol * (gi * gi * P) + tol * (P * qsum_sq g)) by ring.
    apply Qplus_le_compat; assumption.
Qed.

Theorem scale_check_length P tol g n : scale_check P tol g n = true -> length g = length n.
Proof.
  revert n; induction g as [|gi g IH]; intros [|ni n] H; try discriminate; [reflexivity|].
  cbn [scale_check] in H. apply andb_true_iff in H. destruct H as [_ Hr]. cbn [length]. f_equal. now apply IH.
Qed.

(* the model itself delivers exactly P times the draws' second moment *)
Fixpoint qsum (l : list Q) : Q := match l with [] => 0 | x :: t => x + qsum t end.
Theorem noise_sq_total P g : qsum (noise_sq P g) == P * qsum_sq g.
Proof. induction g as [|a g IH]; cbn [noise_sq map qsum qsum_sq]; [ring|]. unfold noise_sq in IH. rewrite IH. ring. Qed.

(* same draws, two powers, in squared form: noise_sq P2 = (P2/P1) * noise_sq P1 *)
Theorem noise_sq_scaling P1 P2 g : ~ P1 == 0 -> forall i, nth i (noise_sq P2 g) 0 == P2 / P1 * nth i (noise_sq P1 g) 0.
Proof.
  intros H1. induction g as [|a g IH]; intros [|i]; cbn [noise_sq map nth]; try (field; exact H1).
  apply IH.
Qed.

(* reduced-fraction accumulation for evaluation (same value, small numbers) *)
Fixpoint qsum_sq_red (l : list Q) : Q := match l with [] => 0 | x :: t => Qred (x * x + qsum_sq_red t) end.
Lemma qsum_sq_red_eq l : qsum_sq_red l == qsum_sq l.
Proof. induction l as [|a l IH]; cbn [qsum_sq_red qsum_sq]; [reflexivity|]. rewrite Qred_correct, IH. reflexivity. Qed.
