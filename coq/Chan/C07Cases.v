(* Entry points evaluated by the harness for C07 (results printed by vm_compute). *)
From Coq Require Import QArith List Bool ZArith.
Import ListNotations.
From KV Require Import Chan.NoiseQ.

(* (P, tol, reference draws = the noise at power 1, noise at power P) *)
Definition c07_scale (P tol : Q) (g n : list Q) : bool := scale_check P tol g n.
Definition c07_prop (tol : Q) (g n : list Q) : bool := prop_check tol g n.
Definition c07_lin (tol r : Q) (num : Z) (den : positive) : bool := lin_check tol r num den.
Definition c07_ratio (tol S P : Q) (num : Z) (den : positive) : bool := ratio_check tol S P num den.
(* the ratio of the two sums of squares, for the SNR path: (S, sum n^2 / sum g^2) must satisfy ratio_check *)
Definition c07_snr (tol S : Q) (num : Z) (den : positive) (g n : list Q) : bool :=
  prop_check_aux tol (qsum_sq_red g) (qsum_sq_red n) g n && ratio_check (tol * 100) (Qred (S * qsum_sq_red g)) (qsum_sq_red n) num den.
