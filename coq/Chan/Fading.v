(* FlatFadingChannel of kaira/channels/analog.py: block expansion of the coefficients (index // coherence_time) and
   y = h * x + n over exact complex rationals.  Executable; the facts are in FadingFacts.v. *)
From Coq Require Import QArith List Arith.
Import ListNotations.
Local Open Scope Q_scope.

Definition C := (Q * Q)%type.
Definition cmul (a b : C) : C := (fst a * fst b - snd a * snd b, fst a * snd b + snd a * fst b).
Definition cadd (a b : C) : C := (fst a + fst b, snd a + snd b).
Definition csub (a b : C) : C := (fst a - fst b, snd a - snd b).
Definition ceq (a b : C) : Prop := fst a == fst b /\ snd a == snd b.
Definition c0 : C := (0, 0).
Definition c1 : C := (1, 0).

(* num_blocks = (seq_length + coherence_time - 1) // coherence_time *)
Definition num_blocks (L ct : nat) : nat := (L + ct - 1) / ct.
(* _expand_coefficients: h_expanded[i] = h[i // coherence_time] *)
Definition expand {A} (d : A) (h : list A) (ct L : nat) : list A := map (fun i => nth (i / ct) h d) (seq 0 L).

Fixpoint forward (h x n : list C) : list C :=
  match h, x, n with
  | a :: h', b :: x', c :: n' => cadd (cmul a b) c :: forward h' x' n'
  | _, _, _ => []
  end.
(* one batch item: block coefficients hb, coherence time ct *)
Definition item (hb : list C) (ct : nat) (x n : list C) : list C := forward (expand c0 hb ct (length x)) x n.
(* a batch: one coefficient list per item *)
Fixpoint batch (hbs : list (list C)) (ct : nat) (xs ns : list (list C)) : list (list C) :=
  match hbs, xs, ns with
  | hb :: hbs', x :: xs', n :: ns' => item hb ct x n :: batch hbs' ct xs' ns'
  | _, _, _ => []
  end.
