From Coq Require Import QArith List Arith Lia.
Import ListNotations.
From KV Require Import Chan.Fading.
Local Open Scope nat_scope.

Lemma expand_length {A} (d : A) h ct L : length (expand d h ct L) = L.
Proof. unfold expand. now rewrite map_length, seq_length. Qed.

Lemma expand_nth {A} (d : A) h ct L i : i < L -> nth i (expand d h ct L) d = nth (i / ct) h d.
Proof.
  intro H. unfold expand. rewrite (nth_indep _ d (nth (0 / ct) h d)) by now rewrite map_length, seq_length.
  rewrite (map_nth (fun i => nth (i / ct) h d) (seq 0 L) 0 i), seq_nth by exact H. reflexivity.
Qed.

(* constant within each coherence block *)
Theorem expand_block_constant {A} (d : A) h ct L i j : i < L -> j < L -> i / ct = j / ct ->
  nth i (expand d h ct L) d = nth j (expand d h ct L) d.
Proof. intros Hi Hj E. rewrite !expand_nth by assumption. now rewrite E. Qed.

(* the number of blocks drawn covers every position, also when ct does not divide L, and the last block is not empty *)
Theorem blocks_cover L ct i : 0 < ct -> i < L -> i / ct < num_blocks L ct.
Proof.
  intros Hc Hi. unfold num_blocks. apply Nat.div_lt_upper_bound; [lia|].
  pose proof (Nat.div_mod (L + ct - 1) ct ltac:(lia)) as E. pose proof (Nat.mod_upper_bound (L + ct - 1) ct ltac:(lia)). nia.
Qed.
Theorem blocks_tight L ct : 0 < ct -> 0 < L -> (num_blocks L ct - 1) * ct < L.
Proof.
  intros Hc HL. unfold num_blocks.
  pose proof (Nat.div_mod (L + ct - 1) ct ltac:(lia)) as E. pose proof (Nat.mod_upper_bound (L + ct - 1) ct ltac:(lia)). nia.
Qed.
Theorem blocks_exact L ct : 0 < ct -> num_blocks (L * ct) ct = L.
Proof.
  intros Hc. unfold num_blocks. destruct L as [|L]; [cbn [Nat.mul]; rewrite Nat.add_0_l; apply Nat.div_small; lia|].
  replace (S L * ct + ct - 1) with (ct - 1 + (S L) * ct) by lia. rewrite Nat.div_add by lia. rewrite Nat.div_small by lia. lia.
Qed.
(* different blocks read different coefficients *)
Theorem expand_block_index {A} (d : A) h ct L i : i < L -> nth i (expand d h ct L) d = nth (i / ct) h d.
Proof. apply expand_nth. Qed.

(* y = h.x + n, position by position; lengths preserved *)
Lemma forward_length h x n : length h = length x -> length n = length x -> length (forward h x n) = length x.
Proof.
  revert x n; induction h as [|a h IH]; intros [|b x] [|c n] H1 H2; cbn in *; try lia.
  f_equal. apply IH; lia.
Qed.
Lemma forward_nth h x n i : i < length x -> length h = length x -> length n = length x ->
  nth i (forward h x n) c0 = cadd (cmul (nth i h c0) (nth i x c0)) (nth i n c0).
Proof.
  revert x n i; induction h as [|a h IH]; intros [|b x] [|c n] i Hi H1 H2; cbn in *; try lia.
  destruct i as [|i]; [reflexivity|]. apply IH; lia.
Qed.

Theorem item_length hb ct x n : length n = length x -> length (item hb ct x n) = length x.
Proof. intro H. unfold item. apply forward_length; [apply expand_length|exact H]. Qed.

Theorem item_nth hb ct x n i : i < length x -> length n = length x ->
  nth i (item hb ct x n) c0 = cadd (cmul (nth (i / ct) hb c0) (nth i x c0)) (nth i n c0).
Proof.
  intros Hi Hn. unfold item. rewrite forward_nth by (try apply expand_length; assumption).
  rewrite expand_nth by exact Hi. reflexivity.
Qed.

(* unit gain and no noise: the input comes back; supplied noise with unit gain is added verbatim *)
Lemma cmul_1_l a : ceq (cmul c1 a) a.
Proof. destruct a as [x y]. unfold ceq, cmul, c1; cbn [fst snd]. split; ring. Qed.
Lemma cadd_0_r a : ceq (cadd a c0) a.
Proof. destruct a as [x y]. unfold ceq, cadd, c0; cbn [fst snd]. split; ring. Qed.

(* batch items are processed independently, each with its own coefficients *)
Theorem batch_nth hbs ct xs ns b : b < length xs -> length hbs = length xs -> length ns = length xs ->
  nth b (batch hbs ct xs ns) [] = item (nth b hbs []) ct (nth b xs []) (nth b ns []).
Proof.
  revert xs ns b; induction hbs as [|hb hbs IH]; intros [|x xs] [|n ns] b Hb H1 H2; cbn in *; try lia.
  destruct b as [|b]; [reflexivity|]. apply IH; lia.
Qed.
Theorem batch_length hbs ct xs ns : length hbs = length xs -> length ns = length xs -> length (batch hbs ct xs ns) = length xs.
Proof.
  revert xs ns; induction hbs as [|hb hbs IH]; intros [|x xs] [|n ns] H1 H2; cbn in *; try lia. f_equal. apply IH; lia.
Qed.
