From Coq Require Import QArith Qround List Bool Lia Lqa.
From KV Require Import Chan.Digital.
Import ListNotations.

Lemma Forall2_map_same {A B} (R : B -> B -> Prop) (f g : A -> B) l :
  (forall a, In a l -> R (f a) (g a)) -> Forall2 R (map f l) (map g l).
Proof. induction l as [|a l IH]; intro H; simpl; constructor; [apply H; now left|apply IH; intros; apply H; now right]. Qed.

Lemma combine_map_l {A B C} (g : A -> C) (x : list A) (u : list B) :
  combine (map g x) u = map (fun vu => (g (fst vu), snd vu)) (combine x u).
Proof. revert u. induction x as [|a x IH]; intros [|b u]; simpl; try reflexivity. now rewrite IH. Qed.

(* ---------------- BSC ---------------- *)
Definition bsc_el (neg : bool) (p : Q) (vu : Q * Q) : Q :=
  let v' := if neg then (fst vu + 1) / 2 else fst vu in
  let y := mod2 (v' + (if ltb (snd vu) p then 1 else 0)) in
  if neg then 2 * y - 1 else y.

Lemma bsc_as_map x u p : bsc x u p = map (bsc_el (neg_format x) p) (combine x u).
Proof.
  unfold bsc. destruct (neg_format x).
  - rewrite combine_map_l, !map_map. reflexivity.
  - reflexivity.
Qed.

Definition flip01 (v : Q) : Q := if Qeq_bool v 0 then 1 else 0.

Lemma neg_format_binary x : Forall (fun v => v = 0 \/ v = 1) x -> neg_format x = false.
Proof. induction 1 as [|v x [->| ->] _ IH]; simpl; [reflexivity|exact IH|exact IH]. Qed.

Lemma neg_format_bipolar x : In (-1) x -> neg_format x = true.
Proof. intro H. unfold neg_format. apply existsb_exists. exists (-1). split; [assumption|reflexivity]. Qed.

(* on {0,1} inputs each output depends on its own input symbol and its own draw only: flipped iff the draw is < p *)
Theorem bsc_binary_pointwise x u p : Forall (fun v => v = 0 \/ v = 1) x ->
  Forall2 Qeq (bsc x u p) (map (fun vu => if ltb (snd vu) p then flip01 (fst vu) else fst vu) (combine x u)).
Proof.
  intro H. rewrite bsc_as_map, (neg_format_binary x H). apply Forall2_map_same.
  intros [v d] Hin. apply in_combine_l in Hin. rewrite Forall_forall in H. specialize (H v Hin).
  unfold bsc_el. cbn [fst snd]. destruct H as [->| ->]; destruct (ltb d p); vm_compute; reflexivity.
Qed.

(* on {-1,+1} inputs containing a -1: the sign is flipped iff the draw is < p *)
Theorem bsc_bipolar_pointwise x u p : Forall (fun v => v = -1 \/ v = 1) x -> In (-1) x ->
  Forall2 Qeq (bsc x u p) (map (fun vu => if ltb (snd vu) p then - fst vu else fst vu) (combine x u)).
Proof.
  intros H Hm. rewrite bsc_as_map, (neg_format_bipolar x Hm). apply Forall2_map_same.
  intros [v d] Hin. apply in_combine_l in Hin. rewrite Forall_forall in H. specialize (H v Hin).
  unfold bsc_el. cbn [fst snd]. destruct H as [->| ->]; destruct (ltb d p); vm_compute; reflexivity.
Qed.

Lemma ltb_false_of_p0 d : 0 <= d -> ltb d 0 = false.
Proof. intro H. unfold ltb. apply Qle_bool_iff in H. now rewrite H. Qed.
Lemma ltb_true_of_p1 d : d < 1 -> ltb d 1 = true.
Proof.
  intro H. unfold ltb. destruct (Qle_bool 1 d) eqn:E; [|reflexivity].
  apply Qle_bool_iff in E. exfalso. apply (Qlt_not_le _ _ H E).
Qed.
Lemma ltb_mono d p1 p2 : p1 <= p2 -> ltb d p1 = true -> ltb d p2 = true.
Proof.
  unfold ltb. intros Hp H. apply negb_true_iff in H. apply negb_true_iff.
  destruct (Qle_bool p2 d) eqn:E; [|reflexivity]. apply Qle_bool_iff in E.
  assert (Qle_bool p1 d = true) by (apply Qle_bool_iff; lra). congruence.
Qed.

(* ---------------- BEC ---------------- *)
Lemma map_nth_in {A B} (f : A -> B) : forall l d d' i, (i < length l)%nat -> nth i (map f l) d = f (nth i l d').
Proof. induction l as [|a l IH]; intros d d' i H; simpl in *; [lia|]. destruct i; [reflexivity|]. apply IH. lia. Qed.

Theorem bec_pointwise x u p e : length u = length x ->
  length (bec x u p e) = length x /\
  forall i, (i < length x)%nat -> nth i (bec x u p e) 0 = if ltb (nth i u 0) p then e else nth i x 0.
Proof.
  intro Hl. unfold bec. split.
  - rewrite map_length, combine_length. lia.
  - intros i Hi. rewrite (map_nth_in _ _ 0 (0, 0)) by (rewrite combine_length; lia).
    rewrite combine_nth by (symmetry; assumption). reflexivity.
Qed.

(* ---------------- Z ---------------- *)
Theorem z_apply_never_raises x' : forall u p, Forall (fun v => v = 0 \/ v = 1) x' ->
  Forall2 (fun v y => y = v \/ (v = 1 /\ y = 0)) x' (z_apply x' u p).
Proof.
  induction x' as [|v t IH]; intros u p H; simpl; [constructor|].
  inversion H as [|? ? Hv Ht]; subst. destruct Hv as [->| ->].
  - change (Qeq_bool 0 1) with false. cbn iota. constructor; [now left|now apply IH].
  - change (Qeq_bool 1 1) with true. cbn iota. destruct u as [|d u'].
    + constructor; [now left|now apply IH].
    + constructor; [|now apply IH]. destruct (ltb d p); [right; split; reflexivity|now left].
Qed.

Theorem z_apply_p0 x' : forall u p, Forall (fun d => ltb d p = false) u -> z_apply x' u p = x'.
Proof.
  induction x' as [|v t IH]; intros u p H; simpl; [reflexivity|].
  destruct (Qeq_bool v 1).
  - destruct u as [|d u']; [now rewrite IH|]. inversion H as [|? ? Hd Hu]; subst. rewrite Hd. now rewrite IH.
  - now rewrite IH.
Qed.

Theorem z_apply_all_fall x' : forall u p, Forall (fun d => ltb d p = true) u ->
  (length (filter (fun v => Qeq_bool v 1) x') <= length u)%nat ->
  z_apply x' u p = map (fun v => if Qeq_bool v 1 then 0 else v) x'.
Proof.
  induction x' as [|v t IH]; intros u p H Hl; simpl in *; [reflexivity|].
  destruct (Qeq_bool v 1).
  - destruct u as [|d u']; [simpl in Hl; lia|]. inversion H as [|? ? Hd Hu]; subst. rewrite Hd.
    rewrite IH; [reflexivity|assumption|simpl in Hl; lia].
  - now rewrite IH.
Qed.

Theorem zch_binary x u p : Forall (fun v => v = 0 \/ v = 1) x ->
  zch x u p = if ltb 0 p then z_apply x u p else x.
Proof. intro H. unfold zch. rewrite (neg_format_binary x H). reflexivity. Qed.
