(* Additive-noise channels of kaira/channels/analog.py and the SNR utilities of kaira/utils/snr.py,
   kaira/metrics/signal/snr.py over the real numbers (Coq Reals).  The random draws are an explicit list:
   the theorems hold for every draw list, so the only thing left to the sampler is its second moment. *)
From Coq Require Import Reals Lra List.
Import ListNotations.
Local Open Scope R_scope.

Fixpoint sum_sq (l : list R) : R := match l with [] => 0 | x :: t => x * x + sum_sq t end.
Fixpoint sum_l (l : list R) : R := match l with [] => 0 | x :: t => x + sum_l t end.
Definition mean_sq (l : list R) : R := sum_sq l / INR (length l).
Definition mean_l (l : list R) : R := sum_l l / INR (length l).
(* complex samples are given by their two component lists *)
Definition cmean_sq (re im : list R) : R := (sum_sq re + sum_sq im) / INR (length re).

(* _apply_noise: randn * sqrt(P) for real input, randn * sqrt(P * 0.5) per component for complex input *)
Definition scaled (s : R) (g : list R) : list R := map (fun gi => gi * s) g.
Definition awgn_real (P : R) (g : list R) : list R := scaled (sqrt P) g.
Definition awgn_cplx_component (P : R) (g : list R) : list R := scaled (sqrt (P * / 2)) g.

(* dB <-> linear <-> noise power (snr_db_to_linear, snr_linear_to_db, snr_to_noise_power, noise_power_to_snr) *)
Definition db_to_lin (d : R) : R := Rpower 10 (d / 10).
Definition lin_to_db (r : R) : R := 10 * (ln r / ln 10).
Definition snr_to_noise_power (S d : R) : R := S / db_to_lin d.
Definition noise_power_to_snr (S N : R) : R := lin_to_db (S / N).
(* calculate_snr clamps the noise power from below; the metric adds eps to it *)
Definition calculate_snr (S N eps : R) : R := lin_to_db (S / Rmax N eps).
Definition metric_snr (S N eps : R) : R := lin_to_db (S / (N + eps)).

(* LaplacianChannel: noise = scale * l(u), scale = sqrt(P/2) (variance of a unit Laplacian is 2); for complex input
   and a configured power or SNR the scale is divided by sqrt 2 per component *)
Definition lap_real (P : R) (l : list R) : list R := scaled (sqrt (P / 2)) l.
Definition lap_cplx_component (P : R) (l : list R) : list R := scaled (sqrt (P / 2) / sqrt 2) l.

(* caller-supplied noise *)
Fixpoint add (x n : list R) : list R := match x, n with a :: x', b :: n' => (a + b) :: add x' n' | _, _ => [] end.
Fixpoint sub (y x : list R) : list R := match y, x with a :: y', b :: x' => (a - b) :: sub y' x' | _, _ => [] end.

(* ------------------------------------------------------------------ facts *)
Lemma sum_sq_scaled s g : sum_sq (scaled s g) = s * s * sum_sq g.
Proof. induction g as [|a g IH]; cbn [scaled map sum_sq]; [lra|]. unfold scaled in IH. rewrite IH. ring. Qed.
Lemma sum_scaled s g : sum_l (scaled s g) = s * sum_l g.
Proof. induction g as [|a g IH]; cbn [scaled map sum_l]; [lra|]. unfold scaled in IH. rewrite IH. ring. Qed.
Lemma scaled_length s g : length (scaled s g) = length g.
Proof. apply map_length. Qed.

Lemma mean_sq_scaled s g : mean_sq (scaled s g) = s * s * mean_sq g.
Proof. unfold mean_sq. rewrite sum_sq_scaled, scaled_length. unfold Rdiv. ring. Qed.
Lemma mean_scaled s g : mean_l (scaled s g) = s * mean_l g.
Proof. unfold mean_l. rewrite sum_scaled, scaled_length. unfold Rdiv. ring. Qed.

(* the added power is exactly P times the second moment of the draws, for every draw list *)
Theorem awgn_real_power P g : 0 <= P -> mean_sq (awgn_real P g) = P * mean_sq g.
Proof. intro HP. unfold awgn_real. rewrite mean_sq_scaled, sqrt_sqrt by exact HP. reflexivity. Qed.

Theorem awgn_real_mean P g : mean_l (awgn_real P g) = sqrt P * mean_l g.
Proof. apply mean_scaled. Qed.

Theorem awgn_cplx_power P g1 g2 : 0 <= P -> length g1 = length g2 ->
  cmean_sq (awgn_cplx_component P g1) (awgn_cplx_component P g2) = P / 2 * (mean_sq g1 + mean_sq g2).
Proof.
  intros HP Hl. unfold cmean_sq, awgn_cplx_component, mean_sq. rewrite !sum_sq_scaled, scaled_length, <- Hl.
  rewrite sqrt_sqrt by lra. unfold Rdiv. ring.
Qed.

Corollary awgn_real_unit_draws P g : 0 <= P -> mean_sq g = 1 -> mean_sq (awgn_real P g) = P.
Proof. intros HP H1. rewrite awgn_real_power, H1 by exact HP. ring. Qed.
Corollary awgn_cplx_unit_draws P g1 g2 : 0 <= P -> length g1 = length g2 -> mean_sq g1 = 1 -> mean_sq g2 = 1 ->
  cmean_sq (awgn_cplx_component P g1) (awgn_cplx_component P g2) = P.
Proof. intros HP Hl H1 H2. rewrite awgn_cplx_power, H1, H2 by assumption. field. Qed.

(* same draws, two powers: noise(g, P2) = sqrt(P2/P1) * noise(g, P1) *)
Theorem same_seed_scaling P1 P2 g : 0 < P1 -> 0 <= P2 -> awgn_real P2 g = scaled (sqrt (P2 / P1)) (awgn_real P1 g).
Proof.
  intros H1 H2. unfold awgn_real, scaled. rewrite map_map. apply map_ext. intro a.
  rewrite sqrt_div_alt by exact H1. pose proof (sqrt_lt_R0 P1 H1). field. lra.
Qed.
Theorem same_seed_scaling_cplx P1 P2 g : 0 < P1 -> 0 <= P2 ->
  awgn_cplx_component P2 g = scaled (sqrt (P2 / P1)) (awgn_cplx_component P1 g).
Proof.
  intros H1 H2. unfold awgn_cplx_component, scaled. rewrite map_map. apply map_ext. intro a.
  replace (P2 / P1) with ((P2 * / 2) / (P1 * / 2)) by (field; lra).
  rewrite sqrt_div_alt by lra. pose proof (sqrt_lt_R0 (P1 * / 2) ltac:(lra)). field. lra.
Qed.

(* dB / linear *)
Lemma ln10_pos : 0 < ln 10.
Proof. rewrite <- ln_1. apply ln_increasing; lra. Qed.
Lemma db_to_lin_pos d : 0 < db_to_lin d.
Proof. unfold db_to_lin, Rpower. apply exp_pos. Qed.
Theorem lin_db_inverse d : lin_to_db (db_to_lin d) = d.
Proof. unfold lin_to_db, db_to_lin, Rpower. rewrite ln_exp. pose proof ln10_pos. field. lra. Qed.
Theorem db_lin_inverse r : 0 < r -> db_to_lin (lin_to_db r) = r.
Proof.
  intro Hr. unfold lin_to_db, db_to_lin, Rpower. pose proof ln10_pos.
  replace (10 * (ln r / ln 10) / 10 * ln 10) with (ln r) by (field; lra). apply exp_ln, Hr.
Qed.
Theorem db_to_lin_increasing d1 d2 : d1 < d2 -> db_to_lin d1 < db_to_lin d2.
Proof. intro H. unfold db_to_lin, Rpower. apply exp_increasing. pose proof ln10_pos. apply Rmult_lt_compat_r; lra. Qed.
Theorem db_to_lin_0 : db_to_lin 0 = 1.
Proof. unfold db_to_lin, Rpower. replace (0 / 10 * ln 10) with 0 by lra. apply exp_0. Qed.
Theorem db_to_lin_10 : db_to_lin 10 = 10.
Proof. unfold db_to_lin, Rpower. replace (10 / 10 * ln 10) with (ln 10) by lra. apply exp_ln. lra. Qed.
Theorem db_to_lin_add a b : db_to_lin (a + b) = db_to_lin a * db_to_lin b.
Proof. unfold db_to_lin, Rpower. rewrite <- exp_plus. f_equal. lra. Qed.

(* configured SNR: the ratio of signal power to the configured noise power is the SNR *)
Theorem noise_power_snr_inverse S d : 0 < S -> noise_power_to_snr S (snr_to_noise_power S d) = d.
Proof.
  intro HS. unfold noise_power_to_snr, snr_to_noise_power. pose proof (db_to_lin_pos d).
  replace (S / (S / db_to_lin d)) with (db_to_lin d) by (field; lra). apply lin_db_inverse.
Qed.
Theorem snr_noise_power_inverse S N : 0 < S -> 0 < N -> snr_to_noise_power S (noise_power_to_snr S N) = N.
Proof.
  intros HS HN. unfold noise_power_to_snr, snr_to_noise_power. rewrite db_lin_inverse.
  - field; lra.
  - apply Rdiv_lt_0_compat; assumption.
Qed.

(* SNR-configured AWGN with unit-second-moment draws: measured SNR = configured SNR *)
Theorem awgn_snr_real x g d : 0 < mean_sq x -> mean_sq g = 1 ->
  noise_power_to_snr (mean_sq x) (mean_sq (awgn_real (snr_to_noise_power (mean_sq x) d) g)) = d.
Proof.
  intros HS Hg. pose proof (db_to_lin_pos d).
  assert (0 <= snr_to_noise_power (mean_sq x) d) by (unfold snr_to_noise_power; apply Rlt_le, Rdiv_lt_0_compat; assumption).
  rewrite awgn_real_unit_draws by assumption. apply noise_power_snr_inverse, HS.
Qed.
Theorem awgn_snr_cplx S g1 g2 d : 0 < S -> length g1 = length g2 -> mean_sq g1 = 1 -> mean_sq g2 = 1 ->
  noise_power_to_snr S (cmean_sq (awgn_cplx_component (snr_to_noise_power S d) g1) (awgn_cplx_component (snr_to_noise_power S d) g2)) = d.
Proof.
  intros HS Hl H1 H2. pose proof (db_to_lin_pos d).
  assert (0 <= snr_to_noise_power S d) by (unfold snr_to_noise_power; apply Rlt_le, Rdiv_lt_0_compat; assumption).
  rewrite awgn_cplx_unit_draws by assumption. apply noise_power_snr_inverse, HS.
Qed.

(* one definition of SNR: calculate_snr, noise_power_to_snr and the metric *)
Theorem calculate_snr_agrees S N eps : eps <= N -> calculate_snr S N eps = noise_power_to_snr S N.
Proof. intro H. unfold calculate_snr, noise_power_to_snr. rewrite Rmax_left by exact H. reflexivity. Qed.

Lemma lin_to_db_div a b : 0 < a -> 0 < b -> lin_to_db (a / b) = lin_to_db a - lin_to_db b.
Proof. intros Ha Hb. unfold lin_to_db. replace (ln (a / b)) with (ln a - ln b).
  - pose proof ln10_pos. field. lra.
  - unfold Rdiv. rewrite ln_mult, ln_Rinv by (try apply Rinv_0_lt_compat; assumption). ring.
Qed.

Theorem metric_snr_offset S N eps : 0 < S -> 0 < N -> 0 <= eps ->
  metric_snr S N eps = noise_power_to_snr S N - lin_to_db (1 + eps / N).
Proof.
  intros HS HN He. unfold metric_snr, noise_power_to_snr.
  assert (Hq : 0 < 1 + eps / N) by (assert (0 <= eps / N) by (apply Rle_mult_inv_pos; assumption); lra).
  replace (S / (N + eps)) with ((S / N) / (1 + eps / N)) by (field; split; lra).
  apply lin_to_db_div; [apply Rdiv_lt_0_compat; assumption|exact Hq].
Qed.

Lemma ln_le_sub1 x : 0 < x -> ln x <= x - 1.
Proof.
  intro Hx. destruct (Rle_lt_dec x 1) as [Hl|Hg].
  - destruct (Req_dec x 1) as [->|Hne]; [rewrite ln_1; lra|].
    pose proof (exp_ineq1 (ln x)) as H. assert (ln x < 0) by (rewrite <- ln_1; apply ln_increasing; lra).
    specialize (H ltac:(lra)). rewrite exp_ln in H by exact Hx. lra.
  - pose proof (exp_ineq1 (ln x)) as H. assert (0 < ln x) by (rewrite <- ln_1; apply ln_increasing; lra).
    specialize (H ltac:(lra)). rewrite exp_ln in H by exact Hx. lra.
Qed.

Theorem metric_snr_offset_bound N eps : 0 < N -> 0 <= eps ->
  0 <= lin_to_db (1 + eps / N) <= 10 / ln 10 * (eps / N).
Proof.
  intros HN He. assert (Hq : 0 <= eps / N) by (apply Rle_mult_inv_pos; assumption). pose proof ln10_pos as Hl.
  unfold lin_to_db. split.
  - assert (0 <= ln (1 + eps / N)).
    { destruct (Req_dec (eps / N) 0) as [->|Hne]; [rewrite Rplus_0_r, ln_1; lra|].
      rewrite <- ln_1. apply Rlt_le, ln_increasing; lra. }
    apply Rmult_le_pos; [lra|]. apply Rle_mult_inv_pos; assumption.
  - pose proof (ln_le_sub1 (1 + eps / N) ltac:(lra)) as Hb.
    replace (10 / ln 10 * (eps / N)) with (10 * ((eps / N) / ln 10)) by (field; split; lra).
    apply Rmult_le_compat_l; [lra|]. unfold Rdiv at 1 3. apply Rmult_le_compat_r; [apply Rlt_le, Rinv_0_lt_compat, Hl|lra].
Qed.

(* Laplacian: with E l^2 = 2 the configured power is delivered, real and (summed over both parts) complex *)
Theorem lap_real_power P l : 0 <= P -> mean_sq (lap_real P l) = P / 2 * mean_sq l.
Proof. intro HP. unfold lap_real. rewrite mean_sq_scaled, sqrt_sqrt by lra. reflexivity. Qed.
Theorem lap_cplx_power P l1 l2 : 0 <= P -> length l1 = length l2 ->
  cmean_sq (lap_cplx_component P l1) (lap_cplx_component P l2) = P / 4 * (mean_sq l1 + mean_sq l2).
Proof.
  intros HP Hl. unfold cmean_sq, lap_cplx_component, mean_sq. rewrite !sum_sq_scaled, scaled_length, <- Hl.
  assert (Hs : sqrt (P / 2) / sqrt 2 * (sqrt (P / 2) / sqrt 2) = P / 4).
  { pose proof (sqrt_lt_R0 2 ltac:(lra)) as H2.
    replace (sqrt (P / 2) / sqrt 2 * (sqrt (P / 2) / sqrt 2)) with ((sqrt (P / 2) * sqrt (P / 2)) / (sqrt 2 * sqrt 2)) by (field; lra).
    rewrite !sqrt_sqrt by lra. field. }
  rewrite Hs. unfold Rdiv. ring.
Qed.
Corollary lap_real_unit P l : 0 <= P -> mean_sq l = 2 -> mean_sq (lap_real P l) = P.
Proof. intros HP H. rewrite lap_real_power, H by exact HP. field. Qed.
Corollary lap_cplx_unit P l1 l2 : 0 <= P -> length l1 = length l2 -> mean_sq l1 = 2 -> mean_sq l2 = 2 ->
  cmean_sq (lap_cplx_component P l1) (lap_cplx_component P l2) = P.
Proof. intros HP Hl H1 H2. rewrite lap_cplx_power, H1, H2 by assumption. field. Qed.

(* caller-supplied noise is added verbatim *)
Theorem noise_verbatim x n : length x = length n -> sub (add x n) x = n.
Proof.
  revert n; induction x as [|a x IH]; intros [|b n] Hl; try discriminate; [reflexivity|].
  cbn [add sub]. rewrite IH by (injection Hl; auto). f_equal. ring.
Qed.

(* the defining equation the exact-rational checker (Chan/NoiseQ.v, lin_check) tests: lin^10 = 10^d, and it
   characterises the linear value among positive numbers *)
Theorem db_to_lin_pow10 d : db_to_lin d ^ 10 = Rpower 10 d.
Proof.
  unfold db_to_lin. rewrite <- Rpower_pow by (unfold Rpower; apply exp_pos). rewrite Rpower_mult. f_equal.
  replace (INR 10) with 10 by (simpl; lra). lra.
Qed.
Theorem db_to_lin_unique d r : 0 < r -> r ^ 10 = Rpower 10 d -> r = db_to_lin d.
Proof.
  intros Hr H. apply ln_inv; [exact Hr|apply db_to_lin_pos|].
  assert (Hl : ln (r ^ 10) = ln (Rpower 10 d)) by (rewrite H; reflexivity).
  rewrite ln_pow in Hl by exact Hr. rewrite ln_Rpower in Hl. unfold db_to_lin. rewrite ln_Rpower.
  replace (INR 10) with 10 in Hl; [lra|]. simpl. lra.
Qed.
