(* Entry points evaluated by the harness for C13. *)
From Coq Require Import QArith Qabs List Bool ZArith Arith.
Import ListNotations.
From KV Require Import Chan.Fading Chan.NoiseQ.

Definition ceq_b (a b : C) : bool := Qeq_bool (fst a) (fst b) && Qeq_bool (snd a) (snd b).
Fixpoint all2 {A} (f : A -> A -> bool) (l1 l2 : list A) : bool :=
  match l1, l2 with [], [] => true | a :: t1, b :: t2 => f a b && all2 f t1 t2 | _, _ => false end.

(* _expand_coefficients on integer-valued coefficients *)
Definition c13_expand_ok (ct L : nat) (h e : list Z) : bool := all2 Z.eqb (expand 0%Z h ct L) e.
(* forward(x, csi=h, noise=n) = h.x + n exactly (small-integer data) *)
Definition c13_forward_ok (h x n y : list C) : bool := all2 ceq_b (forward h x n) y.
(* the coefficients observed through x = 1, n = 0 are the expansion of their own block heads; neighbouring blocks differ *)
Definition heads (ct L : nat) (hf : list C) : list C := map (fun k => nth (k * ct) hf c0) (seq 0 (num_blocks L ct)).
Fixpoint adjacent_distinct (l : list C) : bool :=
  match l with a :: (b :: _) as t => negb (ceq_b a b) && adjacent_distinct t | _ => true end.
Definition c13_blocks_ok (ct L : nat) (hf : list C) : bool :=
  Nat.eqb (length hf) L && all2 ceq_b (expand c0 (heads ct L hf) ct L) hf && adjacent_distinct (heads ct L hf).
(* Rician, same draws as K = 0: re_K = los + re_0 / r with r^2 = K + 1 and los^2 = K / (K + 1); im_K^2 = im_0^2 / (K + 1) *)
Definition c13_rician_ok (K r tol : Q) (re0 reK im0 imK : list Q) : bool :=
  Qeq_bool (r * r) (K + 1) &&
  all2 (fun b a => let l := a - b / r in Qle_bool 0 l && Qle_bool (Qabs (l * l - K / (K + 1))) tol) re0 reK &&
  scale_check (1 / (K + 1)) tol im0 imK.
