From Coq Require Import QArith List Bool.
From KV Require Import Chan.Digital.
Import ListNotations.
(* canonical output: numerator/denominator reduced *)
Definition canon (l : list Q) : list (Z * Z) := map (fun q => let r := Qred q in (Qnum r, Zpos (Qden r))) l.
Definition bsc_case x u p := canon (bsc x u p).
Definition bec_case x u p e := canon (bec x u p e).
Definition z_case x u p := (canon (zch x u p), z_draws x p).
