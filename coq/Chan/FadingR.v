(* Gain normalisation of the fading coefficients of FlatFadingChannel._generate_fading_coefficients over the reals,
   for every list of draws (one pair of draws per block). *)
From Coq Require Import Reals Lra Lia List.
Import ListNotations.
From KV Require Import Chan.NoiseR.
Local Open Scope R_scope.

(* Rayleigh: h = (g1 + i g2) / sqrt 2 ; Rician: h = sqrt(K/(K+1)) + (g1 + i g2) * sqrt(1/(K+1)) / sqrt 2 *)
Definition los (K : R) : R := sqrt (K / (K + 1)).
Definition scat (K : R) : R := sqrt (1 / (K + 1)) / sqrt 2.
Definition rician_re (K : R) (g1 : list R) : list R := map (fun g => los K + g * scat K) g1.
Definition rician_im (K : R) (g2 : list R) : list R := scaled (scat K) g2.
Definition rayleigh_comp (g : list R) : list R := map (fun x => x / sqrt 2) g.

Lemma sqrt2_pos : 0 < sqrt 2.
Proof. apply sqrt_lt_R0. lra. Qed.
Lemma los_sq K : 0 <= K -> los K * los K = K / (K + 1).
Proof. intro H. unfold los. apply sqrt_sqrt. apply Rle_mult_inv_pos; lra. Qed.
Lemma scat_sq K : 0 <= K -> scat K * scat K = 1 / (K + 1) / 2.
Proof.
  intro H. unfold scat. pose proof sqrt2_pos as H2.
  replace (sqrt (1 / (K + 1)) / sqrt 2 * (sqrt (1 / (K + 1)) / sqrt 2)) with ((sqrt (1 / (K + 1)) * sqrt (1 / (K + 1))) / (sqrt 2 * sqrt 2)) by (field; lra).
  rewrite !sqrt_sqrt; [reflexivity|lra|]. apply Rle_mult_inv_pos; lra.
Qed.

Lemma sum_sq_shift a s g : sum_sq (map (fun x => a + x * s) g) = INR (length g) * (a * a) + 2 * a * s * sum_l g + s * s * sum_sq g.
Proof.
  induction g as [|x g IH]; [cbn; lra|]. cbn [map sum_sq sum_l length]. rewrite IH, S_INR. ring.
Qed.

(* mean |h|^2 over the blocks, Rician *)
Theorem rician_gain K g1 g2 : 0 <= K -> length g1 = length g2 -> (0 < length g1)%nat ->
  cmean_sq (rician_re K g1) (rician_im K g2) = K / (K + 1) + 2 * los K * scat K * mean_l g1 + 1 / (K + 1) * ((mean_sq g1 + mean_sq g2) / 2).
Proof.
  intros HK Hl Hn. unfold cmean_sq, rician_re, rician_im, mean_l, mean_sq. rewrite sum_sq_shift, sum_sq_scaled, map_length, <- Hl.
  rewrite los_sq, scat_sq by exact HK. assert (INR (length g1) <> 0) by (apply not_0_INR; lia). field. split; lra.
Qed.
(* unit mean-square gain for zero-mean unit draws, and the K-factor split *)
Corollary rician_unit_gain K g1 g2 : 0 <= K -> length g1 = length g2 -> (0 < length g1)%nat -> mean_l g1 = 0 -> mean_sq g1 = 1 -> mean_sq g2 = 1 ->
  cmean_sq (rician_re K g1) (rician_im K g2) = 1.
Proof. intros HK Hl Hn H0 H1 H2. rewrite rician_gain, H0, H1, H2 by assumption. field. lra. Qed.
Theorem rician_k_factor K : 0 <= K -> los K * los K / (2 * (scat K * scat K)) = K.
Proof. intro HK. rewrite los_sq, scat_sq by exact HK. field. lra. Qed.
(* scattered power with unit draws is 1/(K+1), line-of-sight power K/(K+1) *)
Theorem rician_scattered_power K g1 g2 : 0 <= K -> length g1 = length g2 -> mean_sq g1 = 1 -> mean_sq g2 = 1 ->
  cmean_sq (scaled (scat K) g1) (scaled (scat K) g2) = 1 / (K + 1).
Proof.
  intros HK Hl H1 H2. unfold cmean_sq. rewrite !sum_sq_scaled, scaled_length, scat_sq by exact HK.
  unfold mean_sq in H1, H2. rewrite <- Hl in H2.
  replace ((1 / (K + 1) / 2 * sum_sq g1 + 1 / (K + 1) / 2 * sum_sq g2) / INR (length g1))
    with (1 / (K + 1) / 2 * (sum_sq g1 / INR (length g1) + sum_sq g2 / INR (length g1))) by (unfold Rdiv; ring).
  rewrite H1, H2. field. lra.
Qed.

(* Rayleigh *)
Lemma rayleigh_is_scaled g : rayleigh_comp g = scaled (/ sqrt 2) g.
Proof. unfold rayleigh_comp, scaled. apply map_ext. intro a. reflexivity. Qed.
Theorem rayleigh_gain g1 g2 : length g1 = length g2 ->
  cmean_sq (rayleigh_comp g1) (rayleigh_comp g2) = (mean_sq g1 + mean_sq g2) / 2.
Proof.
  intro Hl. rewrite (rayleigh_is_scaled g1), (rayleigh_is_scaled g2). unfold cmean_sq, mean_sq. rewrite !sum_sq_scaled, scaled_length, <- Hl.
  pose proof sqrt2_pos as H2. assert (Hs : / sqrt 2 * / sqrt 2 = / 2).
  { rewrite <- Rinv_mult. rewrite sqrt_sqrt by lra. reflexivity. }
  rewrite Hs. unfold Rdiv. ring.
Qed.
Corollary rayleigh_unit_gain g1 g2 : length g1 = length g2 -> mean_sq g1 = 1 -> mean_sq g2 = 1 ->
  cmean_sq (rayleigh_comp g1) (rayleigh_comp g2) = 1.
Proof. intros Hl H1 H2. rewrite rayleigh_gain, H1, H2 by exact Hl. lra. Qed.
(* Rician with K = 0 is Rayleigh *)
Theorem rician_k0 g : rician_re 0 g = rayleigh_comp g /\ rician_im 0 g = rayleigh_comp g.
Proof.
  assert (Hl : los 0 = 0) by (unfold los; replace (0 / (0 + 1)) with 0 by lra; apply sqrt_0).
  assert (Hs : scat 0 = / sqrt 2) by (unfold scat; replace (1 / (0 + 1)) with 1 by lra; rewrite sqrt_1; lra).
  split; unfold rician_re, rician_im, rayleigh_comp, scaled; apply map_ext; intro a; rewrite ?Hl, Hs; lra.
Qed.
