(* Executable model of kaira/channels/digital.py: BinarySymmetricChannel, BinaryErasureChannel, BinaryZChannel
   as pure functions of the input x, the probability p and the uniform draws u the channel consumes
   (torch.rand_like), all exact rationals.  No proofs here. *)
From Coq Require Import QArith Qround List Bool.
Import ListNotations.

Definition ltb (a b : Q) : bool := negb (Qle_bool b a).          (* a < b *)
Definition is_m1 (v : Q) : bool := Qeq_bool v (-1).
(* neg_one_format = (x == -1).any() *)
Definition neg_format (x : list Q) : bool := existsb is_m1 x.
(* python/torch float remainder by 2 *)
Definition mod2 (v : Q) : Q := v - inject_Z (2 * Qfloor (v / 2)).

(* BSC: noise = rand_like(x); flips = noise < p; y = (x' + flips) % 2 with x' = (x+1)/2 in bipolar format, then 2y-1 *)
Definition bsc (x u : list Q) (p : Q) : list Q :=
  let neg := neg_format x in
  let x' := if neg then map (fun v => (v + 1) / 2) x else x in
  let y := map (fun vu => mod2 (fst vu + (if ltb (snd vu) p then 1 else 0))) (combine x' u) in
  if neg then map (fun v => 2 * v - 1) y else y.

(* BEC: y = x.float(); y[rand < p] = erasure_symbol *)
Definition bec (x u : list Q) (p e : Q) : list Q :=
  map (fun vu => if ltb (snd vu) p then e else fst vu) (combine x u).

(* Z: draws only for the positions holding a one (in order), and only when p > 0 *)
Fixpoint z_apply (x' u : list Q) (p : Q) : list Q :=
  match x' with
  | [] => []
  | v :: t => if Qeq_bool v 1 then
                match u with
                | d :: u' => (if ltb d p then 0 else v) :: z_apply t u' p
                | [] => v :: z_apply t [] p
                end
              else v :: z_apply t u p
  end.
Definition zch (x u : list Q) (p : Q) : list Q :=
  let neg := neg_format x in
  let x' := if neg then map (fun v => (v + 1) / 2) x else x in
  let y := if ltb 0 p then z_apply x' u p else x' in
  if neg then map (fun v => 2 * v - 1) y else y.
(* number of draws the Z channel consumes *)
Definition z_draws (x : list Q) (p : Q) : nat :=
  let x' := if neg_format x then map (fun v => (v + 1) / 2) x else x in
  if ltb 0 p then length (filter (fun v => Qeq_bool v 1) x') else 0.
